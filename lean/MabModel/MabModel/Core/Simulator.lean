/-
  Simulator bookkeeping: train/test split, online batches, per-arm statistics, `default_evaluator`,
  and the shared distance list of `_RadiusSimulator` / `_KNearestSimulator` (cache per metric).
-/
import MabModel.Core.Bandit
open Py

namespace Mab

/-- ordered split: the first `k` rows train, the remaining rows test (`test_indices = range(k, n)`) -/
def orderedSplit (n k : Nat) : List Nat × List Nat := (List.range k, (List.range n).drop k)

/-- `for i in range(ceil(n / b)): rows[start : min(start + b, n + 1)]; start += b` -/
def batchBounds (n b : Nat) : List (Nat × Nat) :=
  (List.range ((n + b - 1) / b)).map fun i => (i * b, min (i * b + b) (n + 1))

/-- python slicing `l[start:stop]` (clamped at the end of the list) -/
def sliceOf {β : Type} (l : List β) (p : Nat × Nat) : List β := (l.drop p.1).take (p.2 - p.1)

structure Stat where
  count : Nat := 0
  sum : Rat := 0
  min : Rat := 0
  max : Rat := 0
  mean : Rat := 0
deriving Repr, DecidableEq, Inhabited

def listMin : List Rat → Rat
  | [] => 0
  | x :: xs => xs.foldl (fun m y => if y < m then y else m) x

def listMaxR : List Rat → Rat
  | [] => 0
  | x :: xs => xs.foldl (fun m y => if m < y then y else m) x

/-- `Simulator.get_stats` / the all-zero record of `get_arm_stats` for an arm without rows -/
def getStats (rs : List Rat) : Stat :=
  if rs.length = 0 then {}
  else { count := rs.length, sum := rs.sum, min := listMin rs, max := listMaxR rs, mean := rs.sum / (rs.length : Rat) }

variable {α : Type} [DecidableEq α]

def armRewards (decisions : List α) (rewards : List Rat) (a : α) : List Rat :=
  (List.zip decisions rewards).filterMap fun p => if p.1 = a then some p.2 else none

/-- `get_arm_stats` -/
def armStats (arms : List α) (decisions : List α) (rewards : List Rat) : Dict α Stat :=
  arms.map fun a => (a, getStats (armRewards decisions rewards a))

/-- the rewards `default_evaluator` credits to arm `a` (non-neighbourhood branch): the observed reward
    where the prediction equals the logged decision, otherwise the arm's training statistic -/
def credited (decisions : List α) (rewards : List Rat) (predictions : List α) (train : α → Rat) (a : α) : List Rat :=
  (List.zip predictions (List.zip decisions rewards)).filterMap fun p =>
    if p.1 = a then some (if p.1 = p.2.1 then p.2.2 else train a) else none

def evaluate (arms : List α) (decisions : List α) (rewards : List Rat) (predictions : List α) (train : α → Rat) :
    Dict α (List Rat) :=
  arms.map fun a => (a, credited decisions rewards predictions train a)

/-- the rewards `default_evaluator` credits to arm `a` when the substitute for a row whose prediction
    differs from the logged decision depends on the row — the neighbourhood branch (`nn=True`): the
    statistic of the predicted arm in *that row's* neighbourhood when there is one, else its training statistic -/
def creditedBy (decisions : List α) (rewards : List Rat) (predictions : List α) (subs : List (α → Rat)) (a : α) : List Rat :=
  (List.zip predictions (List.zip decisions (List.zip rewards subs))).filterMap fun p =>
    if p.1 = a then some (if p.1 = p.2.1 then p.2.2.1 else p.2.2.2 a) else none

/-- the neighbourhood substitute of one row: `nbr = none` is an empty record for the row, `f a = none`
    an empty or missing record for the arm (both falsy in the code) -/
def nnSub (nbr : Option (α → Option Rat)) (train : α → Rat) : α → Rat :=
  fun a => match nbr with
    | some f => (f a).getD (train a)
    | none => train a

def evaluateNN (arms : List α) (decisions : List α) (rewards : List Rat) (predictions : List α) (train : α → Rat)
    (nbrs : List (Option (α → Option Rat))) : Dict α (List Rat) :=
  arms.map fun a => (a, creditedBy decisions rewards predictions (nbrs.map fun n => nnSub n train) a)

/-! ### shared distances -/

/-- `calculate_distances`: one distance vector per query row, in row order -/
def simDistances (dist : Vec → Vec → Rat) (hist : List Vec) (qs : List Vec) : List (List Rat) :=
  qs.map fun q => hist.map fun h => dist h q

/-- the per-chunk cache: distances are computed by the first neighbour bandit *with that metric* and
    handed to later bandits with the same metric -/
def simCache {μ : Type} [DecidableEq μ] (dist : μ → Vec → Vec → Rat) (hist : List Vec) (qs : List Vec) :
    List μ → Dict μ (List (List Rat)) → List (μ × List (List Rat)) × Dict μ (List (List Rat))
  | [], cache => ([], cache)
  | m :: ms, cache =>
    match cache.get? m with
    | some d =>
      let r := simCache dist hist qs ms cache
      ((m, d) :: r.1, r.2)
    | none =>
      let d := simDistances (dist m) hist qs
      let r := simCache dist hist qs ms (cache.set m d)
      ((m, d) :: r.1, r.2)

/-- `_RadiusSimulator._predict_contexts`: row `index` of the worker that starts at `start` -/
def simRadiusSelect (distances : List (List Rat)) (start index : Nat) (bound : Rat) : List Nat :=
  ((distances.getD (start + index) []).zipIdx.filterMap fun (p : Rat × Nat) => if p.1 ≤ bound then some p.2 else none)

end Mab
