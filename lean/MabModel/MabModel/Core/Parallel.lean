/-
  `BaseMAB._effective_jobs`, `_partition_contexts`, and `_parallel_predict` as a map over the
  contiguous chunks of the query rows.
-/
import MabModel.Core.Bandit
open Py

namespace Mab

/-- `_effective_jobs(size, n_jobs)` with `cpu = mp.cpu_count()` -/
def effectiveJobs (size : Nat) (nJobs : Int) (cpu : Nat) : Nat :=
  let j : Int := if nJobs < 0 then max ((cpu : Int) + 1 + nJobs) 1 else nJobs
  min j.toNat size

def prefixSums : List Nat → Nat → List Nat
  | [], _ => []
  | x :: xs, acc => (acc + x) :: prefixSums xs (acc + x)

/-- `_partition_contexts(n)`: `(n_jobs, n_contexts_per_job, [0] + cumsum)` -/
def partitionContexts (n : Nat) (nJobs : Int) (cpu : Nat) : Nat × List Nat × List Nat :=
  let j := effectiveJobs n nJobs cpu
  let sizes := (List.range j).map fun i => n / j + (if i < n % j then 1 else 0)
  (j, sizes, 0 :: prefixSums sizes 0)

/-- split `l` into consecutive chunks of the given sizes (`contexts[starts[i]:starts[i+1]]`) -/
def splitBySizes {β : Type} : List Nat → List β → List (List β)
  | [], _ => []
  | k :: ks, l => l.take k :: splitBySizes ks (l.drop k)

variable {α : Type} [DecidableEq α]

/-- `_parallel_predict` with the rows split into chunks of the given sizes (one worker per chunk;
    each worker gets its slice of the seeds, i.e. row `i` keeps generator `row i`).
    The tape is consumed chunk after chunk, which is the order a single process would produce. -/
def Bandit.parallelPredictWith (le : Expect → Expect → Bool) (b : Bandit α) (isPredict : Bool)
    (qs : List Vec) (sizes : List Nat) (o : Oracle) (g : Rng) :
    List (ExpDict α ⊕ (Option α × ExpDict α)) × List Bool × Rng :=
  let (_, g) := g.draw { stream := .main, kind := .randint, size := qs.length }
  let chunks := splitBySizes sizes qs
  let starts := 0 :: prefixSums sizes 0
  (List.zip chunks starts).foldl (fun acc cs =>
    let (outs, ties, g) := b.predictChunk le isPredict cs.1 cs.2 o acc.2.2
    (acc.1 ++ outs, acc.2.1 ++ ties, g)) ([], [], g)

end Mab
