/-
  Core vocabulary of the model (core Lean only).
-/
import MabModel.Py.Dict
open Py

namespace Mab

/-- A symbolic expectation: where mabwiser applies `sqrt`, `log`, `exp` to bookkeeping values the
    model keeps the *arguments* (exact rationals).  `Props/Real.lean` gives the real-number meaning. -/
inductive Expect where
  | val (q : Rat)
  /-- `mean + alpha * sqrt(2 * ln N / n)` (`_UCB1._get_ucb`) -/
  | ucb (mean alpha : Rat) (N n : Nat)
  /-- `exp((m - max ms)/tau) / Σ_{x ∈ ms} exp((x - max ms)/tau)` (`_Softmax._expectation_operation`) -/
  | soft (ms : List Rat) (tau m : Rat)
  /-- `xb + alpha * sqrt q` (`_LinUCB.predict`) -/
  | lin (xb alpha q : Rat)
  | nan
deriving DecidableEq, Repr, Inhabited

abbrev Vec := List Rat
abbrev Mat := List (List Rat)

/-- One observation: decision, reward, context row (empty for context-free data). -/
structure Row (α : Type) where
  arm : α
  reward : Rat
  ctx : Vec := []
deriving Repr

abbrev Batch (α : Type) := List (Row α)

/-- Which generator object a draw is taken from. -/
inductive Stream where
  | main                      -- the bandit's own generator, created from its seed
  | row (i : Nat)             -- `create_rng(seeds[i])` for query row `i` of the current call
  | copyOf (s : Stream)       -- a private deep copy (per-arm LinTS models)
deriving DecidableEq, Repr, Inhabited

inductive ReqKind where
  | rand | randint | choice | beta | normal | mvn | dirichlet
deriving DecidableEq, Repr, Inhabited

/-- A sampler request: stream, kind, exact parameters, number of scalars expected back. -/
structure Req where
  stream : Stream
  kind : ReqKind
  params : List Expect := []
  size : Nat
deriving Repr, Inhabited

/-- Recorded sampler answers, one flat list of scalars per request, in call order. -/
abbrev Tape := List (List Rat)

/-- Sampling context threaded through prediction. -/
structure Rng where
  tape : Tape
  reqs : List Req := []       -- in call order
  underflow : Bool := false   -- the model asked for something the tape does not hold
deriving Repr, Inhabited

/-- Ask the tape for `n` scalars. -/
def Rng.draw (g : Rng) (r : Req) : List Rat × Rng :=
  match g.tape with
  | [] => (List.replicate r.size 0, { g with reqs := g.reqs ++ [r], underflow := true })
  | a :: t =>
    let ok := a.length == r.size
    ((a ++ List.replicate (r.size - a.length) 0).take r.size,
      { tape := t, reqs := g.reqs ++ [r], underflow := g.underflow || !ok })

/-- chunk a flat list into rows of width `w` (`reshape(-1, w)`) -/
def chunk (w : Nat) : Nat → List Rat → List (List Rat)
  | 0, _ => []
  | n + 1, l => l.take w :: chunk w n (l.drop w)

end Mab
