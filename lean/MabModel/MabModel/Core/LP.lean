/-
  Learning policies: `_EpsilonGreedy`, `_UCB1`, `_Softmax`, `_ThompsonSampling`, `_Popularity`,
  `_Random` and `_Linear` (`_RidgeRegression`, `_LinUCB`, `_LinTS`, scale=False), together with
  the parts of `BaseMAB` they inherit (arm status, add/remove arm, warm start).

  The per-arm dictionaries of the Python classes (`arm_to_sum`, `arm_to_count`, `arm_to_mean`,
  `arm_to_expectation`, `arm_to_success_count`, `arm_to_fail_count`, `arm_to_status`,
  `arm_to_model`) are kept in lock-step by the code; the model merges them into one insertion-
  ordered dict of records `st`.  `arms` is the arm list object the policy shares with `MAB`.
-/
import MabModel.Core.LinAlg
open Py

namespace Mab

inductive Kind where
  | greedy (eps : Rat) | ucb (alpha : Rat) | softmax (tau : Rat) | thompson | popularity | random
  | linGreedy (eps lam : Rat) | linUCB (alpha lam : Rat) | linTS (alpha lam : Rat)
deriving DecidableEq, Repr, Inhabited

def Kind.isLinear : Kind → Bool
  | .linGreedy .. | .linUCB .. | .linTS .. => true
  | _ => false

def Kind.lam : Kind → Rat
  | .linGreedy _ l | .linUCB _ l | .linTS _ l => l
  | _ => 1

structure ArmSt (α : Type) where
  sum : Rat := 0
  cnt : Nat := 0
  mean : Rat := 0
  exp : Expect := .val 0
  succ : Rat := 1
  fail : Rat := 1
  trained : Bool := false
  warm : Bool := false
  warmBy : Option α := none
  -- `_RidgeRegression` (meaningful once `inited`)
  inited : Bool := false
  A : Mat := []
  Xty : Vec := []
  Ainv : Mat := []
  beta : Vec := []
  rngPriv : Bool := false      -- the model's generator is a private deep copy
  -- `scale=True`: the arm's fitted `StandardScaler` (`mean_`, `scale_` after `fix_small_variance`); empty = not fitted.
  -- The statistics themselves are an oracle (scikit-learn); the model applies them.
  mu : Vec := []
  sc : Vec := []
deriving Repr, Inhabited

structure LP (α : Type) where
  kind : Kind
  arms : List α
  total : Nat := 0
  st : Dict α (ArmSt α)
  binz : Option (α → Rat → Rat) := none
  ctxBin : Bool := false                  -- `is_contextual_binarized`
  numFeatures : Option Nat := none
  k1fixed : Bool := false                 -- variant switch for known finding K1 (see DESIGN §8)
deriving Inhabited

variable {α : Type} [DecidableEq α]

/-- `_scale_predict_context`: standardise a query row with the arm's scaler (identity when not fitted) -/
def scaleRow (mu sc x : Vec) : Vec :=
  if mu.isEmpty then x else List.zipWith (fun (p : Rat × Rat) s => (p.1 - p.2) / s) (List.zip x mu) sc

/-- `_RidgeRegression.init` -/
def linInitRec (lam : Rat) (d : Nat) (k1fixed : Bool) (r : ArmSt α) : ArmSt α :=
  { r with inited := true, A := msmul lam (ident d), Xty := zeroVec d,
           Ainv := if k1fixed then msmul (1 / lam) (ident d) else msmul lam (ident d),
           beta := zeroVec d }

/-- The record a constructor / `add_arm` installs. -/
def freshRec (kind : Kind) (numFeatures : Option Nat) (k1fixed : Bool) : ArmSt α :=
  match kind.isLinear, numFeatures with
  | true, some d => linInitRec kind.lam d k1fixed {}
  | _, _ => {}

def LP.init (kind : Kind) (arms : List α) (binz : Option (α → Rat → Rat) := none)
    (k1fixed : Bool := false) : LP α :=
  { kind, arms, st := Dict.ofFn arms fun _ => freshRec kind none k1fixed, binz, k1fixed }

/-- rows of one arm in a batch: `rewards[decisions == arm]`, `contexts[decisions == arm]` -/
def rowsOf (b : Batch α) (a : α) : List (Rat × Vec) :=
  (b.filter (·.arm = a)).map fun r => (r.reward, r.ctx)

def rsum (rs : List (Rat × Vec)) : Rat := (rs.map (·.1)).sum

/-- What `_fit_arm` does to its own arm's entry, given the arm's rows in the batch. -/
def fitRec (kind : Kind) (N : Nat) (rs : List (Rat × Vec)) (r : ArmSt α) : ArmSt α :=
  match kind with
  | .greedy _ | .popularity =>
    if rs.length ≠ 0 then
      let sm := r.sum + rsum rs
      let c := r.cnt + rs.length
      { r with sum := sm, cnt := c, exp := .val (sm / c) }
    else r
  | .ucb alpha =>
    let r1 : ArmSt α :=
      if rs.length ≠ 0 then
        let sm := r.sum + rsum rs
        let c := r.cnt + rs.length
        { r with sum := sm, cnt := c, mean := sm / c }
      else r
    if r1.cnt ≠ 0 then { r1 with exp := .ucb r1.mean alpha N r1.cnt } else r1
  | .softmax _ =>
    if rs.length ≠ 0 then
      let sm := r.sum + rsum rs
      let c := r.cnt + rs.length
      { r with sum := sm, cnt := c, mean := sm / c }
    else r
  | .thompson =>
    { r with succ := r.succ + rsum rs, fail := r.fail + ((rs.length : Rat) - rsum rs) }
  | .random => r
  | .linGreedy .. | .linUCB .. | .linTS .. =>
    if rs.length ≠ 0 then
      let A := addGram r.A (rs.map (·.2))
      let Ainv := invD A
      let Xty := addXty r.Xty rs
      { r with A := A, Ainv := Ainv, Xty := Xty, beta := mulVec Ainv Xty, rngPriv := true }
    else r

/-- `_get_binary_rewards` -/
def LP.binarize (s : LP α) (b : Batch α) : Batch α :=
  match s.binz, s.ctxBin with
  | some f, false => b.map fun r => { r with reward := f r.arm r.reward }
  | _, _ => b

/-- `_fit_arm` -/
def LP.fitArm (s : LP α) (b : Batch α) (a : α) : LP α :=
  { s with st := s.st.modify a (fitRec s.kind s.total (rowsOf b a)) }

/-- `_parallel_fit` with the tasks executed in the order `order` (the code submits `self.arms`). -/
def LP.parallelFitIn (s : LP α) (b : Batch α) (order : List α) : LP α :=
  order.foldl (fun s a => s.fitArm b a) s

def LP.parallelFit (s : LP α) (b : Batch α) : LP α := s.parallelFitIn b s.arms

def LP.means (s : LP α) : List Rat := s.st.vals.map (·.mean)

/-- `_Softmax._expectation_operation` -/
def LP.expOp (s : LP α) : LP α :=
  match s.kind with
  | .softmax tau => { s with st := s.st.mapKV fun _ r => { r with exp := .soft s.means tau r.mean } }
  | _ => s

/-- the raw mean `_normalize_expectations` starts from -/
def popMean (r : ArmSt α) : Rat := if r.cnt ≠ 0 then r.sum / r.cnt else 0

def LP.popTotal (s : LP α) : Rat := (s.st.vals.map popMean).sum

/-- `_Popularity._normalize_expectations` (means are recomputed from the sums and counts) -/
def LP.normalize (s : LP α) : LP α :=
  match s.kind with
  | .popularity =>
    if s.popTotal = 0 then
      { s with st := s.st.mapKV fun _ r => { r with exp := .val (1 / (s.arms.length : Rat)) } }
    else
      { s with st := s.st.mapKV fun _ r => { r with exp := .val (popMean r / s.popTotal) } }
  | _ => s

def batchArms (b : Batch α) : List α := b.map (·.arm)

/-- `_set_arms_as_trained` -/
def LP.setTrained (s : LP α) (b : Batch α) (isPartial : Bool) : LP α :=
  { s with st := s.st.mapKV fun a r =>
      if a ∈ s.arms ∧ a ∈ batchArms b then
        if isPartial then { r with trained := true }
        else { r with trained := true, warm := false, warmBy := none }
      else r }

/-- What `fit` resets before training (statistics, status, per-arm models and their generators).
    `_ThompsonSampling` leaves its `arm_to_expectation` (the last draw) alone. -/
def resetRec (kind : Kind) (numFeatures : Option Nat) (k1fixed : Bool) (r : ArmSt α) : ArmSt α :=
  let f : ArmSt α := freshRec kind numFeatures k1fixed
  match kind with
  | .thompson => { f with exp := r.exp }
  | _ => f

def batchWidth (b : Batch α) : Option Nat := (b.head?).map (·.ctx.length)

/-- the three whole-policy passes that follow `_parallel_fit`: `_expectation_operation` (Softmax),
    `_set_arms_as_trained`, `_normalize_expectations` (Popularity) -/
def LP.post (s : LP α) (b : Batch α) (p : Bool) : LP α := ((s.expOp).setTrained b p).normalize

/-- `num_features` after `fit` (`contexts.shape[1]` for linear policies) -/
def LP.nfFor (s : LP α) (b : Batch α) (width : Option Nat) : Option Nat :=
  if s.kind.isLinear then (match width with | some w => some w | none => batchWidth b) else s.numFeatures

/-- the resets at the top of `fit` -/
def LP.resetFor (s : LP α) (b : Batch α) (width : Option Nat) : LP α :=
  { s with total := b.length, numFeatures := s.nfFor b width,
           st := s.st.mapKV fun _ r => resetRec s.kind (s.nfFor b width) s.k1fixed r }

def LP.fit (s : LP α) (b0 : Batch α) (width : Option Nat := none) : LP α :=
  match s.kind with
  | .random => s
  | _ => ((s.resetFor (s.binarize b0) width).parallelFit (s.binarize b0)).post (s.binarize b0) false

def LP.bumpTotal (s : LP α) (n : Nat) : LP α := { s with total := s.total + n }

def LP.partialFit (s : LP α) (b0 : Batch α) : LP α :=
  match s.kind with
  | .random => s
  | _ => ((s.bumpTotal (s.binarize b0).length).parallelFit (s.binarize b0)).post (s.binarize b0) true

/-- the dictionary writes of `BaseMAB.add_arm` + `_uptake_new_arm` (the caller has appended `a` to the
    shared arm list); a Thompson policy takes over a new binarizer -/
def LP.insertArm (s : LP α) (a : α) (binz : Option (α → Rat → Rat)) : LP α :=
  { s with arms := s.arms ++ [a],
           st := s.st.set a (freshRec s.kind s.numFeatures s.k1fixed),
           binz := match s.kind, binz with
                   | .thompson, some f => some f
                   | _, _ => s.binz }

/-- `BaseMAB.add_arm` + `_uptake_new_arm` -/
def LP.addArm (s : LP α) (a : α) (binz : Option (α → Rat → Rat) := none) : LP α :=
  (s.insertArm a binz).expOp

def LP.dropArm (s : LP α) (a : α) : LP α :=
  { s with arms := s.arms.filter (· != a), st := s.st.pop a }

/-- `BaseMAB.remove_arm` + `_drop_existing_arm` -/
def LP.removeArm (s : LP α) (a : α) : LP α := (s.dropArm a).expOp.normalize

/-! ### warm start -/

def selfDistance : Rat := 999999

/-- `_get_arm_distances`: `raw from to = none` stands for a NaN from `cdist`. -/
def armDistance (raw : α → α → Option Rat) (f t : α) : Rat :=
  if f = t then selfDistance else (raw f t).getD selfDistance

def minOf : List Rat → Rat
  | [] => 0
  | x :: xs => xs.foldl (fun m y => if y < m then y else m) x

def insertSorted (x : Rat) : List Rat → List Rat
  | [] => [x]
  | y :: ys => if x ≤ y then x :: y :: ys else y :: insertSorted x ys

def sortRat (l : List Rat) : List Rat := l.foldr insertSorted []

/-- `np.quantile(xs, q)` (default linear interpolation); `none` for an empty list (numpy raises). -/
def quantileLin (xs : List Rat) (q : Rat) : Option Rat :=
  match sortRat xs with
  | [] => none
  | s =>
    let pos : Rat := q * ((s.length : Rat) - 1)
    let lo : Nat := pos.floor.toNat
    let frac : Rat := pos - (lo : Rat)
    let a := s.getD lo 0
    let b := s.getD (lo + 1) a
    some (a + (b - a) * frac)

/-- `_get_distance_threshold` over the key order of the feature dict -/
def distanceThreshold (keys : List α) (raw : α → α → Option Rat) (q : Rat) : Option Rat :=
  let closest := keys.filterMap fun f =>
    let m := minOf (keys.map fun t => armDistance raw f t)
    if m ≠ selfDistance then some m else none
  quantileLin closest q

/-- first key attaining the minimum (`utils.argmin`) -/
def argminFirst : List (α × Rat) → Option α
  | [] => none
  | (k, v) :: t =>
    some (t.foldl (fun (acc : α × Rat) p => if p.2 < acc.2 then p else acc) (k, v)).1

def LP.trainedArms (s : LP α) : List α := s.arms.filter fun a => ((s.st.get? a).map (·.trained)).getD false
def LP.coldArms (s : LP α) : List α :=
  s.arms.filter fun a => ((s.st.get? a).map fun r => !r.trained && !r.warm).getD false

/-- `_get_cold_arm_to_warm_arm` -/
def LP.coldToWarm (s : LP α) (keys : List α) (raw : α → α → Option Rat) (q : Rat) :
    Option (List (α × α)) :=
  match distanceThreshold keys raw q with
  | none => none
  | some thr =>
    some <| s.coldArms.filterMap fun c =>
      let cands := s.trainedArms.map fun t => (t, armDistance raw c t)
      match argminFirst cands with
      | none => none
      | some w => if armDistance raw c w ≤ thr then some (c, w) else none

/-- the fields `_copy_arms` copies, per policy -/
def copyRec (kind : Kind) (src dst : ArmSt α) : ArmSt α :=
  match kind with
  | .greedy _ | .popularity => { dst with sum := src.sum, cnt := src.cnt, exp := src.exp }
  | .ucb _ => { dst with sum := src.sum, cnt := src.cnt, mean := src.mean, exp := src.exp }
  | .softmax _ => { dst with sum := src.sum, cnt := src.cnt, mean := src.mean }
  | .thompson => { dst with succ := src.succ, fail := src.fail }
  | .random => dst
  | .linGreedy .. | .linUCB .. | .linTS .. =>
    { dst with inited := src.inited, A := src.A, Xty := src.Xty, Ainv := src.Ainv, beta := src.beta,
               rngPriv := true, mu := src.mu, sc := src.sc }

/-- one `for cold_arm, warm_arm in cold_arm_to_warm_arm.items()` iteration of `_copy_arms` -/
def LP.copyOne (s : LP α) (p : α × α) : LP α :=
  match s.st.get? p.2 with
  | some src => { s with st := s.st.modify p.1 (copyRec s.kind src) }
  | none => s

def LP.copyFold (s : LP α) (m : List (α × α)) : LP α := m.foldl LP.copyOne s

/-- `_copy_arms` (Softmax recomputes its shares afterwards) -/
def LP.copyArms (s : LP α) (m : List (α × α)) : LP α := (s.copyFold m).expOp

def LP.markOne (s : LP α) (p : α × α) : LP α :=
  { s with st := s.st.modify p.1 fun r => { r with warm := true, warmBy := some p.2 } }

/-- the status updates at the end of `_warm_start` -/
def LP.markWarm (s : LP α) (m : List (α × α)) : LP α := m.foldl LP.markOne s

/-- `_warm_start`; `none` = the call raised (empty list of closest distances), state unchanged. -/
def LP.warmStart (s : LP α) (keys : List α) (raw : α → α → Option Rat) (q : Rat) : Option (LP α) :=
  match s.kind with
  | .random => some s
  | _ =>
    match s.coldToWarm keys raw q with
    | none => none
    | some m => some ((s.copyArms m).markWarm m)

/-! ### prediction -/

inductive Out (β : Type) where
  | one (x : β)
  | many (l : List β)
deriving Repr

def Out.toList {β} : Out β → List β
  | .one x => [x]
  | .many l => l

/-- `predictions if len(predictions) > 1 else predictions[0]` -/
def Out.unwrap {β} [Inhabited β] (l : List β) : Out β :=
  if l.length > 1 then .many l else .one (l.headD default)

def Out.map {β γ} (f : β → γ) : Out β → Out γ
  | .one x => .one (f x)
  | .many l => .many (l.map f)

abbrev ExpDict (α : Type) := Dict α Expect

def LP.expDict (s : LP α) : ExpDict α := s.st.map fun p => (p.1, p.2.exp)

def ratLt (a b : Rat) : Bool := decide (a < b)

/-- put the random rows and the model rows back into query order (`arm_expectations[indices] = …`) -/
def assembleRows (arms : List α) (randRows : List (List Rat)) (cols : List (List Expect)) :
    List Bool → Nat → Nat → List (ExpDict α)
  | [], _, _ => []
  | true :: t, ri, ni =>
    List.zip arms ((randRows.getD ri []).map Expect.val) :: assembleRows arms randRows cols t (ri + 1) ni
  | false :: t, ri, ni =>
    List.zip arms (cols.map fun c => c.getD ni .nan) :: assembleRows arms randRows cols t ri (ni + 1)

/-- `predict_expectations(contexts)`; `m = none` stands for `contexts is None`, `some n` for `n`
    rows, `ctxs` are the rows (only linear policies read them).  `own` is `self.rng`. -/
def LP.predictExp (s : LP α) (m : Option Nat) (ctxs : List Vec) (own : Stream) (g : Rng) :
    LP α × Out (ExpDict α) × Rng :=
  let size := m.getD 1
  let k := s.arms.length
  match s.kind with
  | .greedy eps =>
    if size = 1 then
      let (u, g) := g.draw { stream := own, kind := .rand, size := 1 }
      if ratLt (u.headD 0) eps then
        let (d, g) := s.arms.foldl (fun (acc : ExpDict α × Rng) a =>
          let (v, g) := acc.2.draw { stream := own, kind := .rand, size := 1 }
          (acc.1 ++ [(a, Expect.val (v.headD 0))], g)) ([], g)
        (s, .one d, g)
      else (s, .one s.expDict, g)
    else
      let (p, g) := g.draw { stream := own, kind := .rand, size := size }
      let (rv, g) := g.draw { stream := own, kind := .rand, size := size * k }
      let rows := chunk k size rv
      (s, .many ((List.zip p rows).map fun pr =>
        if ratLt pr.1 eps then List.zip s.arms (pr.2.map Expect.val) else s.expDict), g)
  | .ucb _ =>
    if size = 1 then (s, .one s.expDict, g) else (s, .many (List.replicate size s.expDict), g)
  | .softmax _ | .popularity =>
    let alpha := s.st.vals.map (·.exp)
    let (dv, g) := g.draw { stream := own, kind := .dirichlet, params := alpha, size := size * s.st.length }
    let rows := chunk s.st.length size dv
    let ds := rows.map fun r => List.zip s.st.keys (r.map Expect.val)
    (s, if size = 1 then .one (ds.headD []) else .many ds, g)
  | .thompson =>
    let (cols, g) := s.st.keys.foldl (fun (acc : List (α × List Rat) × Rng) a =>
      let r : ArmSt α := (s.st.get? a).getD {}
      let (v, g) := acc.2.draw { stream := own, kind := .beta, params := [.val r.succ, .val r.fail], size := size }
      (acc.1 ++ [(a, v)], g)) ([], g)
    let ds : List (ExpDict α) := (List.range size).map fun i =>
      s.arms.map fun a => (a, Expect.val (((cols.find? (·.1 = a)).map (·.2)).getD []  |>.getD i 0))
    let last := ds.getLastD []
    let s' : LP α := { s with st := s.st.mapKV fun a r => { r with exp := (Dict.get? last a).getD r.exp } }
    (s', if size = 1 then .one (ds.headD []) else .many ds, g)
  | .random =>
    let (rv, g) := g.draw { stream := own, kind := .rand, size := size * k }
    let ds := (chunk k size rv).map fun r => List.zip s.arms (r.map Expect.val)
    (s, if size = 1 then .one (ds.headD []) else .many ds, g)
  | .linGreedy .. | .linUCB .. | .linTS .. =>
    -- `_vectorized_predict_context`
    let eps : Rat := match s.kind with | .linGreedy e _ => e | _ => 0
    let n := ctxs.length
    let (u, g) := g.draw { stream := own, kind := .rand, size := n }
    let mask := u.map fun x => ratLt x eps
    let nRandom := (mask.filter id).length
    let (rv, g) := g.draw { stream := own, kind := .rand, size := nRandom * k }
    let randRows := chunk k nRandom rv
    let nonRandom := (List.zip mask ctxs).filterMap fun p => if p.1 then none else some p.2
    -- one column of expectations per arm over the non-random rows
    let (cols, g) := s.arms.foldl (fun (acc : List (List Expect) × Rng) a =>
      let r : ArmSt α := (s.st.get? a).getD {}
      match s.kind with
      | .linUCB alpha _ =>
        (acc.1 ++ [nonRandom.map fun x0 => Expect.lin (dot (scaleRow r.mu r.sc x0) r.beta) alpha
                      (dot (vecMul (scaleRow r.mu r.sc x0) r.Ainv) (scaleRow r.mu r.sc x0))], acc.2)
      | .linTS alpha _ =>
        let d := r.beta.length
        let strm := if r.rngPriv then Stream.copyOf own else own
        let (bv, g) := acc.2.draw { stream := strm, kind := .mvn,
                                    params := r.beta.map Expect.val ++ (msmul (alpha * alpha) r.Ainv).flatten.map Expect.val,
                                    size := nonRandom.length * d }
        let B := chunk d nonRandom.length bv
        (acc.1 ++ [(List.zip nonRandom B).map fun p => Expect.val (dot (scaleRow r.mu r.sc p.1) p.2)], g)
      | _ => (acc.1 ++ [nonRandom.map fun x0 => Expect.val (dot (scaleRow r.mu r.sc x0) r.beta)], acc.2)) ([], g)
    (s, Out.unwrap (assembleRows s.arms randRows cols mask 0 0), g)

/-- Comparison of symbolic expectations: exact on `val`, otherwise delegated to `le` (the harness
    evaluates with floats); theorems hold for every `le`. -/
def Expect.leWith (le : Expect → Expect → Bool) (a b : Expect) : Bool :=
  match a, b with
  | .val x, .val y => decide (x ≤ y)
  | _, _ => le a b

/-- `utils.argmax` = `max(d, key=d.get)` and `np.argmax`: the first key attaining the maximum. -/
def argmaxFirst (le : Expect → Expect → Bool) : ExpDict α → Option α
  | [] => none
  | (k, v) :: t =>
    some (t.foldl (fun (acc : α × Expect) p => if Expect.leWith le p.2 acc.2 then acc else p) (k, v)).1

/-- `predict(contexts)`: the arg-max of what `predict_expectations` computes from the same state and
    draws (returned together with the expectations it was computed from). -/
def LP.predict (le : Expect → Expect → Bool) (s : LP α) (m : Option Nat) (ctxs : List Vec)
    (own : Stream) (g : Rng) : LP α × Out (Option α × ExpDict α) × Rng :=
  let (s', e, g') := s.predictExp m ctxs own g
  (s', e.map (fun d => (argmaxFirst le d, d)), g')

end Mab
