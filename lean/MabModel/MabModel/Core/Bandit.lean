/-
  The `MAB` facade and the neighbourhood policies `_Radius`, `_KNearest`, `_LSHNearest`,
  `_Clusters`, `_TreeBandit`.

  External code is an oracle: k-means labels / cells, tree leaves, hyper-planes (tape), distances
  for irrational metrics.  Everything else — stored history, selection, the reuse of one policy
  copy across the rows of a chunk, per-row generators, the empty-neighbourhood branch, hash
  tables with index offsets, leaf reward lists — is transcribed.
-/
import MabModel.Core.LP
open Py

namespace Mab

inductive Metric where
  | cityblock | chebyshev | sqeuclidean | euclidean
  | oracle                       -- distances supplied by the harness (cosine, …)
deriving DecidableEq, Repr, Inhabited

inductive NPCfg where
  | none
  | radius (r : Rat) (metric : Metric) (probs : Option (List Rat))
  | knn (k : Nat) (metric : Metric)
  | lsh (nDim nTab : Nat) (probs : Option (List Rat))
  | clusters (n : Nat)
  | tree
deriving Repr, Inhabited

def absR (x : Rat) : Rat := if x < 0 then -x else x

/-- exact distance; `euclidean` is represented by its square (compared with `r²`) -/
def distExact (m : Metric) (x y : Vec) : Rat :=
  let diffs := List.zipWith (· - ·) x y
  match m with
  | .cityblock => (diffs.map absR).sum
  | .chebyshev => diffs.foldl (fun acc d => if acc < absR d then absR d else acc) 0
  | .sqeuclidean | .euclidean => (diffs.map fun d => d * d).sum
  | .oracle => 0

def radiusBound (m : Metric) (r : Rat) : Rat :=
  match m with
  | .euclidean => r * r
  | _ => r

/-- External values for one call. -/
structure Oracle where
  labels : List Nat := []            -- k-means `labels_` for the whole stored history (fit / partial_fit)
  cells : List Nat := []             -- k-means `predict` for the query rows
  leaves : List (List Nat) := []     -- per arm (in arm order): leaf of each of the arm's batch rows
  qleaves : List (List Nat) := []    -- per query row: leaf under each arm's tree (arm order)
  dists : List (List Rat) := []      -- per query row: distance to every stored row (metric = oracle)
  ksets : List (List Nat) := []      -- per query row: an alternative choice of the k nearest rows
deriving Repr, Inhabited

structure Bandit (α : Type) where
  arms : List α
  lp : LP α
  np : NPCfg := .none
  isFit : Bool := false
  -- `_Neighbors` / `_Clusters`: stored history (the three columns, aligned by construction)
  hist : Batch α := []
  -- the neighbourhood object's own `arm_to_expectation` (NaN, or 0 for TreeBandit)
  npExp : ExpDict α := []
  -- `_LSHNearest`
  planes : List Mat := []                      -- per table: n_cols × n_dimensions
  tables : List (Dict Nat (List Nat)) := []    -- per table: hash → stored row indices
  -- `_Clusters`
  lps : List (LP α) := []
  labels : List Nat := []
  -- `_TreeBandit`: arm → leaf → rewards; a tree exists iff the arm's dict is non-empty
  leafRewards : Dict α (Dict Nat (List Rat)) := []
deriving Inhabited

variable {α : Type} [DecidableEq α]

def Bandit.isContextual (b : Bandit α) : Bool :=
  match b.np with
  | .none => b.lp.kind.isLinear
  | _ => true

/-- `MAB.__init__` (arguments already validated) -/
def Bandit.init (arms : List α) (kind : Kind) (np : NPCfg) (binz : Option (α → Rat → Rat) := none)
    (k1fixed : Bool := false) : Bandit α :=
  let lp := LP.init kind arms binz k1fixed
  match np with
  | .none => { arms, lp, np }
  | .radius .. | .knn .. => { arms, lp, np, npExp := Dict.fromKeys arms .nan }
  | .lsh _ nTab _ =>
    { arms, lp, np, npExp := Dict.fromKeys arms .nan,
      planes := List.replicate nTab [], tables := List.replicate nTab [] }
  | .clusters n => { arms, lp, np, npExp := Dict.fromKeys arms .nan, lps := List.replicate n lp }
  | .tree => { arms, lp, np, npExp := Dict.fromKeys arms (.val 0), leafRewards := Dict.fromKeys arms [] }

/-! ### training -/

/-- `_Neighbors._binarize_ts_rewards` / the same lines in `_Clusters` and `_TreeBandit` -/
def npBinarize (lp : LP α) (b : Batch α) : LP α × Batch α :=
  match lp.kind, lp.binz with
  | .thompson, some _ =>
    let lp0 := { lp with ctxBin := false }
    ({ lp with ctxBin := true }, lp0.binarize b)
  | _, _ => (lp, b)

/-- `get_context_hash`: bit `i` is set iff the projection on plane column `i` is positive -/
def contextHash (plane : Mat) (x : Vec) : Nat :=
  let proj := vecMul x plane
  (proj.zipIdx.map fun (p : Rat × Nat) => if 0 < p.1 then 2 ^ p.2 else 0).sum

/-- `_LSHNearest._fit_operation` for one table: append `start + i` to the bucket of row `i` -/
def lshInsert (plane : Mat) (table : Dict Nat (List Nat)) (ctxs : List Vec) (start : Nat) :
    Dict Nat (List Nat) :=
  let hs := ctxs.map (contextHash plane)
  -- `np.unique(hash_values)`: ascending distinct hashes; one `_add_neighbors` task per hash
  let keys := (hs.foldl (fun acc h => if h ∈ acc then acc else acc ++ [h]) []).mergeSort (· ≤ ·)
  keys.foldl (fun t h =>
    let idx := (hs.zipIdx.filterMap fun (p : Nat × Nat) => if p.1 = h then some (p.2 + start) else none)
    t.set h (t.getD h [] ++ idx)) table

def lshFitOp (b : Bandit α) (ctxs : List Vec) (start : Nat) : Bandit α :=
  { b with tables := (List.zip b.planes b.tables).map fun pt => lshInsert pt.1 pt.2 ctxs start }

/-- `_Clusters._fit_operation`: every cluster's policy is `fit` on the rows labelled with it -/
def clustersFitOp (b : Bandit α) (labels : List Nat) (width : Option Nat) : Bandit α :=
  { b with labels := labels,
           lps := b.lps.zipIdx.map fun (p : LP α × Nat) =>
             p.1.fit ((List.zip b.hist labels).filterMap fun rl => if rl.2 = p.2 then some rl.1 else none) width }

/-- `_TreeBandit._fit_arm` for all arms: append each row's reward to its leaf's list -/
def treeFitArms (b : Bandit α) (batch : Batch α) (leaves : List (List Nat)) : Bandit α :=
  { b with leafRewards := b.arms.zipIdx.foldl (fun lr (p : α × Nat) =>
      let rs := rowsOf batch p.1
      if rs.length = 0 then lr
      else
        let lv := leaves.getD p.2 []
        lr.modify p.1 fun d =>
          (List.zip rs lv).foldl (fun d rl => d.set rl.2 (d.getD rl.2 [] ++ [rl.1.1])) d) b.leafRewards }

/-- `planes` for a fresh `fit`: one `standard_normal((n_cols, n_dimensions))` request per table -/
def drawPlanes (nTab nCols nDim : Nat) (g : Rng) : List Mat × Rng :=
  (List.range nTab).foldl (fun (acc : List Mat × Rng) _ =>
    let (v, g) := acc.2.draw { stream := .main, kind := .normal, size := nCols * nDim }
    (acc.1 ++ [chunk nDim nCols v], g)) ([], g)

/-- `_imp.fit` -/
def Bandit.impFit (b : Bandit α) (batch : Batch α) (o : Oracle) (g : Rng) : Bandit α × Rng :=
  let width := batchWidth batch
  match b.np with
  | .none => ({ b with lp := b.lp.fit batch width }, g)
  | .radius .. | .knn .. =>
    let (lp, bb) := npBinarize b.lp batch
    ({ b with lp, hist := bb }, g)
  | .lsh nDim nTab _ =>
    let (lp, bb) := npBinarize b.lp batch
    let (planes, g) := drawPlanes nTab (width.getD 0) nDim g
    let b1 : Bandit α := { b with lp, hist := bb, planes, tables := List.replicate nTab [] }
    (lshFitOp b1 (bb.map (·.ctx)) 0, g)
  | .clusters _ =>
    let (lp0, bb) := npBinarize (b.lps.headD b.lp) batch
    let lps := b.lps.map fun l => { l with ctxBin := lp0.ctxBin }
    (clustersFitOp { b with lps, hist := bb } o.labels width, g)
  | .tree =>
    let (lp, bb) := npBinarize b.lp batch
    (treeFitArms { b with lp, leafRewards := Dict.fromKeys b.arms [] } bb o.leaves, g)

/-- `_imp.partial_fit` -/
def Bandit.impPartialFit (b : Bandit α) (batch : Batch α) (o : Oracle) (g : Rng) : Bandit α × Rng :=
  match b.np with
  | .none => ({ b with lp := b.lp.partialFit batch }, g)
  | .radius .. | .knn .. =>
    let (lp, bb) := npBinarize b.lp batch
    ({ b with lp, hist := b.hist ++ bb }, g)
  | .lsh .. =>
    let start := b.hist.length
    let (lp, bb) := npBinarize b.lp batch
    (lshFitOp { b with lp, hist := b.hist ++ bb } (bb.map (·.ctx)) start, g)
  | .clusters _ =>
    let (lp0, bb) := npBinarize (b.lps.headD b.lp) batch
    let lps := b.lps.map fun l => { l with ctxBin := lp0.ctxBin }
    let h := b.hist ++ bb
    (clustersFitOp { b with lps, hist := h } o.labels (batchWidth h), g)
  | .tree =>
    let (lp, bb) := npBinarize b.lp batch
    (treeFitArms { b with lp } bb o.leaves, g)

/-! ### arms -/

/-- `_imp.add_arm` (the facade has appended to the shared arm list) -/
def Bandit.impAddArm (b : Bandit α) (a : α) (binz : Option (α → Rat → Rat)) : Bandit α :=
  let b1 : Bandit α := { b with arms := b.arms ++ [a] }
  match b.np with
  | .none => { b1 with lp := b.lp.addArm a binz }
  | .radius .. | .knn .. | .lsh .. =>
    -- a new binarizer applies to subsequent observations only: the stored rewards stay as they are
    let lp := b.lp.addArm a binz
    { b1 with lp := (match lp.kind, binz with
                     | .thompson, some _ => { lp with ctxBin := true }
                     | _, _ => lp),
              npExp := b.npExp.set a .nan }
  | .clusters _ =>
    { b1 with lps := b.lps.map fun l => l.addArm a binz, npExp := b.npExp.set a (.val 0) }
  | .tree =>
    { b1 with lp := b.lp.addArm a binz, npExp := b.npExp.set a (.val 0),
              leafRewards := b.leafRewards.set a [] }

def Bandit.impRemoveArm (b : Bandit α) (a : α) : Bandit α :=
  let b1 : Bandit α := { b with arms := b.arms.filter (· != a), npExp := b.npExp.pop a }
  match b.np with
  | .none => { b1 with lp := b.lp.removeArm a }
  | .radius .. | .knn .. | .lsh .. => { b1 with lp := b.lp.removeArm a }
  | .clusters _ => { b1 with lps := b.lps.map fun l => l.removeArm a }
  | .tree => { b1 with lp := b.lp.removeArm a, leafRewards := b.leafRewards.pop a }

/-! ### prediction -/

def stableSortIdx (ds : List Rat) : List Nat :=
  (ds.zipIdx.mergeSort fun (a b : Rat × Nat) => decide (a.1 ≤ b.1)).map (·.2)

/-- indices of the stored rows the neighbourhood policy selects for one query row;
    the flag reports a tie at the k-th distance (any valid tie-break is acceptable there) -/
def Bandit.selectIdx (b : Bandit α) (q : Vec) (rowDists : List Rat) (kset : List Nat) : List Nat × Bool :=
  match b.np with
  | .radius r metric _ =>
    let ds := if metric = .oracle then rowDists else b.hist.map fun h => distExact metric h.ctx q
    ((ds.zipIdx.filterMap fun (p : Rat × Nat) => if p.1 ≤ radiusBound metric r then some p.2 else none), false)
  | .knn k metric =>
    let ds := if metric = .oracle then rowDists else b.hist.map fun h => distExact metric h.ctx q
    let order := stableSortIdx ds
    let dk := ds.getD (order.getD (k - 1) 0) 0
    let tie := k < ds.length && ds.getD (order.getD k 0) 0 == dk
    -- an alternative k-set is used only if it is a valid set of k nearest rows
    let valid := kset.length = k ∧ kset.Nodup ∧ kset.all (fun i => i < ds.length ∧ ds.getD i 0 ≤ dk) ∧
                 (List.range ds.length).all (fun i => i ∈ kset ∨ dk ≤ ds.getD i 0)
    (if kset ≠ [] ∧ valid then kset else order.take k, tie)
  | .lsh .. =>
    let all := (List.zip b.planes b.tables).foldl (fun acc pt => acc ++ pt.2.getD (contextHash pt.1 q) []) []
    (all.foldl (fun acc i => if i ∈ acc then acc else acc ++ [i]) [], false)
  | _ => ([], false)

def noNhoodProbs (np : NPCfg) : Option (List Rat) :=
  match np with
  | .radius _ _ p => p
  | .lsh _ _ p => p
  | _ => none

/-- One row under `_Radius` / `_KNearest` / `_LSHNearest`: `lp` is the worker's copy of the policy,
    re-`fit` on the selected rows; row `i` owns generator `row i`. -/
def Bandit.nhoodRow (le : Expect → Expect → Bool) (b : Bandit α) (isPredict : Bool) (lp : LP α)
    (i : Nat) (q : Vec) (rowDists : List Rat) (kset : List Nat) (g : Rng) :
    LP α × (ExpDict α ⊕ (Option α × ExpDict α)) × Bool × Rng :=
  let (idx, tie) := b.selectIdx q rowDists kset
  if idx.length > 0 then
    let rows := idx.filterMap fun j => b.hist[j]?
    let lp1 := lp.fit rows (some q.length)
    if isPredict then
      let (lp2, o, g) := lp1.predict le (some 1) [q] (.row i) g
      (lp2, .inr (o.toList.headD (none, [])), tie, g)
    else
      let (lp2, o, g) := lp1.predictExp (some 1) [q] (.row i) g
      (lp2, .inl (o.toList.headD []), tie, g)
  else if isPredict then
    let (v, g) := g.draw { stream := .row i, kind := .choice,
                           params := ((noNhoodProbs b.np).getD []).map Expect.val, size := 1 }
    (lp, .inr (b.arms[(v.headD 0).floor.toNat]?, b.npExp), tie, g)
  else (lp, .inl b.npExp, tie, g)

/-- `_create_leaf_lp` + `leaf_lp.fit([arm] * n, leaf_rewards)` + `predict_expectations()[arm]` -/
def Bandit.treeLeafExp (b : Bandit α) (a : α) (rewards : List Rat) (g : Rng) : Expect × Rng :=
  let leaf : LP α := { LP.init b.lp.kind [a] b.lp.binz with ctxBin := false }
  let leaf := leaf.fit (rewards.map fun r => { arm := a, reward := r })
  let (_, o, g) := leaf.predictExp none [] .main g
  (((o.toList.headD []).get? a).getD .nan, g)

def Bandit.treeRow (le : Expect → Expect → Bool) (b : Bandit α) (isPredict : Bool)
    (qleaf : List Nat) (g : Rng) : (ExpDict α ⊕ (Option α × ExpDict α)) × Rng :=
  let (d, g) := b.arms.zipIdx.foldl (fun (acc : ExpDict α × Rng) (p : α × Nat) =>
    let lr := b.leafRewards.getD p.1 []
    if lr.length = 0 then acc
    else
      let (e, g) := b.treeLeafExp p.1 (lr.getD (qleaf.getD p.2 0) []) acc.2
      (acc.1.set p.1 e, g)) (b.npExp, g)
  if isPredict then
    match b.lp.kind with
    | .greedy eps =>
      let (u, g) := g.draw { stream := .main, kind := .rand, size := 1 }
      if ratLt (u.headD 0) eps then
        let (v, g) := g.draw { stream := .main, kind := .randint, size := 1 }
        (.inr (b.arms[(v.headD 0).floor.toNat]?, d), g)
      else (.inr (argmaxFirst le d, d), g)
    | _ => (.inr (argmaxFirst le d, d), g)
  else (.inl d, g)

structure PredOut (α : Type) where
  exps : Out (ExpDict α) := .many []
  arms : Out (Option α × ExpDict α) := .many []
  ties : List Bool := []

/-- `_predict_contexts(rows, is_predict, seeds, start)` for the rows `start ..`; one worker. -/
def Bandit.predictChunk (le : Expect → Expect → Bool) (b : Bandit α) (isPredict : Bool)
    (qs : List Vec) (start : Nat) (o : Oracle) (g : Rng) :
    List (ExpDict α ⊕ (Option α × ExpDict α)) × List Bool × Rng :=
  match b.np with
  | .radius .. | .knn .. | .lsh .. =>
    let r := qs.zipIdx.foldl (fun (acc : LP α × List (ExpDict α ⊕ (Option α × ExpDict α)) × List Bool × Rng) (p : Vec × Nat) =>
      let i := start + p.2
      let (lp, out, tie, g) := b.nhoodRow le isPredict acc.1 i p.1 (o.dists.getD i []) (o.ksets.getD i []) acc.2.2.2
      (lp, acc.2.1 ++ [out], acc.2.2.1 ++ [tie], g)) (b.lp, [], [], g)
    (r.2.1, r.2.2.1, r.2.2.2)
  | .clusters _ =>
    let r := qs.zipIdx.foldl (fun (acc : List (LP α) × List (ExpDict α ⊕ (Option α × ExpDict α)) × Rng) (p : Vec × Nat) =>
      let i := start + p.2
      let c := o.cells.getD i 0
      let lp0 : LP α := acc.1.getD c default
      -- the row generator is installed on the policy and on its per-arm models
      let lp : LP α := { lp0 with st := lp0.st.mapKV fun _ r => { r with rngPriv := false } }
      if isPredict then
        let (lp2, out, g) := lp.predict le (some 1) [p.1] (.row i) acc.2.2
        (acc.1.set c lp2, acc.2.1 ++ [.inr (out.toList.headD (none, []))], g)
      else
        let (lp2, out, g) := lp.predictExp (some 1) [p.1] (.row i) acc.2.2
        (acc.1.set c lp2, acc.2.1 ++ [.inl (out.toList.headD [])], g)) (b.lps, [], g)
    (r.2.1, [], r.2.2)
  | .tree =>
    let r := qs.zipIdx.foldl (fun (acc : List (ExpDict α ⊕ (Option α × ExpDict α)) × Rng) (p : Vec × Nat) =>
      let (out, g) := b.treeRow le isPredict (o.qleaves.getD (start + p.2) []) acc.2
      (acc.1 ++ [out], g)) ([], g)
    (r.1, [], r.2)
  | .none => ([], [], g)

/-- `_parallel_predict` with one worker: seeds for all rows are drawn first from the main stream. -/
def Bandit.parallelPredict (le : Expect → Expect → Bool) (b : Bandit α) (isPredict : Bool)
    (qs : List Vec) (o : Oracle) (g : Rng) : List (ExpDict α ⊕ (Option α × ExpDict α)) × List Bool × Rng :=
  let (_, g) := g.draw { stream := .main, kind := .randint, size := qs.length }
  b.predictChunk le isPredict qs 0 o g

def splitOuts (l : List (ExpDict α ⊕ (Option α × ExpDict α))) : List (ExpDict α) × List (Option α × ExpDict α) :=
  (l.filterMap fun x => match x with | .inl d => some d | _ => none,
   l.filterMap fun x => match x with | .inr a => some a | _ => none)

/-- `_imp.predict` / `_imp.predict_expectations` -/
def Bandit.impPredict (le : Expect → Expect → Bool) (b : Bandit α) (isPredict : Bool)
    (m : Option Nat) (qs : List Vec) (o : Oracle) (g : Rng) : Bandit α × PredOut α × Rng :=
  match b.np with
  | .none =>
    if isPredict then
      let (lp, out, g) := b.lp.predict le m qs .main g
      ({ b with lp }, { arms := out }, g)
    else
      let (lp, out, g) := b.lp.predictExp m qs .main g
      ({ b with lp }, { exps := out }, g)
  | _ =>
    let (outs, ties, g) := b.parallelPredict le isPredict qs o g
    let (es, as) := splitOuts outs
    (b, { exps := Out.unwrap es, arms := Out.unwrap as, ties }, g)

end Mab
