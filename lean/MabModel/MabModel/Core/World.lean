/-
  World — several bandits in one interpreter, plus the mutable objects that can be reached from more
  than one of them or from the caller.  For the current tree there is exactly one candidate: the
  dictionary `tree_parameters`, whose default value `{}` is created once, when the class body of
  `NeighborhoodPolicy.TreeBandit` is evaluated, and is therefore the *same object* for every
  default-constructed policy tuple; a caller-supplied dictionary is shared with the caller.
  `_TreeBandit.__init__` stores `random_state` (the bandit's seed) under it; every `fit` builds its
  trees with the `random_state` it finds there.

  `shared = true` models the pinned tree (the bandit keeps a reference to the passed dictionary and
  writes into it), `shared = false` the repaired one (a private copy).
-/
namespace Mab

structure WBandit where
  seed : Nat
  usesDefault : Bool          -- constructed with the default-constructed policy tuple
  ownParams : Nat             -- `random_state` in the bandit's private dictionary
  trees : List Nat := []      -- the `random_state` each tree of this bandit was built with (one entry per fit)
deriving Repr, DecidableEq

structure World where
  shared : Bool
  defaultCell : Nat := 0      -- `random_state` stored in the single default dictionary object
  callerCell : Option Nat := none   -- `random_state` key of a caller-owned dictionary (`none` = caller never set it)
  bandits : List WBandit := []
deriving Repr, DecidableEq

inductive WOp where
  | construct (seed : Nat) (usesDefault : Bool)
  | fit (i : Nat)
  | other (i : Nat)           -- any other call on bandit `i` (partial_fit on fitted arms, predictions, arm changes)
  | copy (i : Nat)            -- `copy.deepcopy(b_i)` / `pickle.loads(pickle.dumps(b_i))`: a new bandit with a duplicate of
                              -- everything reachable from `b_i` (the default dictionary is reachable only in the shared variant)
deriving Repr, DecidableEq

def World.step (w : World) : WOp → World
  | .construct seed d =>
    let b : WBandit := { seed, usesDefault := d, ownParams := seed }
    if w.shared then
      if d then { w with defaultCell := seed, bandits := w.bandits ++ [b] }
      else { w with callerCell := some seed, bandits := w.bandits ++ [b] }
    else { w with bandits := w.bandits ++ [b] }
  | .fit i =>
    { w with bandits := w.bandits.mapIdx fun j b =>
        if j = i then
          { b with trees := b.trees ++ [if w.shared ∧ b.usesDefault then w.defaultCell else b.ownParams] }
        else b }
  | .other _ => w
  | .copy i =>
    match w.bandits[i]? with
    | some b => { w with bandits := w.bandits ++ [b] }
    | none => w

def World.run (w : World) (ops : List WOp) : World := ops.foldl World.step w

end Mab
