/-
  Py.Shape — the slice of numpy's shape algebra `_LinTS.predict` relies on: `np.squeeze` of the
  `(m, d)` sample matrix, broadcasting of `x * beta_sampled`, `np.sum(axis=1)`, `np.reshape`.
  Arrays are nested lists; `Arr` distinguishes rank 0, 1 and 2.
-/
namespace Py

inductive Arr where
  | scalar (v : Rat)
  | vec (v : List Rat)
  | mat (rows : List (List Rat))
deriving Repr, DecidableEq

/-- `np.squeeze` of an `(m, d)` matrix: drop the axes of length one -/
def squeeze (rows : List (List Rat)) : Arr :=
  match rows with
  | [[v]] => .scalar v
  | [r] => .vec r
  | _ => if rows.all (fun r => r.length == 1) then .vec (rows.map fun r => r.headD 0) else .mat rows

/-- `x * b` with numpy broadcasting for `x` of shape `(m, d)` -/
def mulBroadcast (x : List (List Rat)) (b : Arr) : List (List Rat) :=
  match b with
  | .scalar v => x.map fun r => r.map (· * v)
  | .vec v => x.map fun r => List.zipWith (· * ·) r (if r.length = 1 then v else v)   -- trailing axis against v
                |>.map id
  | .mat rows => List.zipWith (fun r br => List.zipWith (· * ·) r br) x rows

/-- broadcasting a length-`n` vector against rows of length 1 stretches the *row* (shape `(m,1)*(n,)` → `(m,n)`) -/
def mulBroadcastVec (x : List (List Rat)) (v : List Rat) : List (List Rat) :=
  x.map fun r => if r.length = 1 then v.map (· * r.headD 0) else List.zipWith (· * ·) r v

def sumAxis1 (a : List (List Rat)) : List Rat := a.map List.sum

/-- `np.reshape(b, x.shape)` of the flat sample buffer -/
def reshapeRows (w : Nat) : Nat → List Rat → List (List Rat)
  | 0, _ => []
  | n + 1, l => l.take w :: reshapeRows w n (l.drop w)

end Py
