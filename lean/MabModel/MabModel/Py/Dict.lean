/-
  Py.Dict — Python's insertion-ordered dict as an association list.
  `d[k] = v` replaces in place or appends; `pop`; `dict.fromkeys`; `reset(d, v)` (utils.py);
  `modify` = read-modify-write of one key (what every `_fit_arm` does to its own arm).
  Core Lean only (no Mathlib) so that the driver can import it.
-/
namespace Py
set_option linter.unusedSectionVars false
set_option linter.unusedVariables false

abbrev Dict (κ : Type) (ν : Type) := List (κ × ν)

variable {κ ν : Type} [DecidableEq κ]

def Dict.keys (d : Dict κ ν) : List κ := d.map (·.1)
def Dict.vals (d : Dict κ ν) : List ν := d.map (·.2)

def Dict.get? : Dict κ ν → κ → Option ν
  | [], _ => none
  | (k', v') :: t, k => if k' = k then some v' else Dict.get? t k

def Dict.getD (d : Dict κ ν) (k : κ) (dflt : ν) : ν := (d.get? k).getD dflt

/-- `d[k] = v`: replace in place if present, else append. -/
def Dict.set : Dict κ ν → κ → ν → Dict κ ν
  | [], k, v => [(k, v)]
  | (k', v') :: t, k, v => if k' = k then (k, v) :: t else (k', v') :: Dict.set t k v

def Dict.pop : Dict κ ν → κ → Dict κ ν
  | [], _ => []
  | (k', v') :: t, k => if k' = k then Dict.pop t k else (k', v') :: Dict.pop t k

def Dict.fromKeys (ks : List κ) (v : ν) : Dict κ ν := ks.map (·, v)

/-- `{k: f(k) for k in ks}` -/
def Dict.ofFn (ks : List κ) (f : κ → ν) : Dict κ ν := ks.map fun k => (k, f k)

/-- map over values with access to the key (keeps keys and order) -/
def Dict.mapKV (d : Dict κ ν) (f : κ → ν → ν) : Dict κ ν := d.map fun p => (p.1, f p.1 p.2)

/-- `reset(d, v)` from utils.py -/
def Dict.resetAll (d : Dict κ ν) (v : ν) : Dict κ ν := d.mapKV fun _ _ => v

/-- `d[k] = f(d[k])` when `k` is present (Python would raise `KeyError` otherwise; callers keep
    `arms ⊆ keys`). -/
def Dict.modify : Dict κ ν → κ → (ν → ν) → Dict κ ν
  | [], _, _ => []
  | (k', v') :: t, k, f => if k' = k then (k', f v') :: t else (k', v') :: Dict.modify t k f

@[simp] theorem Dict.keys_nil : Dict.keys ([] : Dict κ ν) = [] := rfl
@[simp] theorem Dict.keys_cons (p : κ × ν) (t : Dict κ ν) :
    Dict.keys (p :: t) = p.1 :: Dict.keys t := rfl

@[simp] theorem Dict.keys_fromKeys (ks : List κ) (v : ν) : (Dict.fromKeys ks v).keys = ks := by
  simp [Dict.keys, Dict.fromKeys, List.map_map, Function.comp_def]

@[simp] theorem Dict.keys_ofFn (ks : List κ) (f : κ → ν) : (Dict.ofFn ks f).keys = ks := by
  simp [Dict.keys, Dict.ofFn, List.map_map, Function.comp_def]

@[simp] theorem Dict.keys_mapKV (d : Dict κ ν) (f : κ → ν → ν) : (d.mapKV f).keys = d.keys := by
  simp [Dict.keys, Dict.mapKV, List.map_map, Function.comp_def]

@[simp] theorem Dict.keys_resetAll (d : Dict κ ν) (v : ν) : (d.resetAll v).keys = d.keys := by
  simp [Dict.resetAll]

@[simp] theorem Dict.keys_modify (d : Dict κ ν) (k : κ) (f : ν → ν) :
    (d.modify k f).keys = d.keys := by
  induction d with
  | nil => rfl
  | cons p t ih => obtain ⟨k', v'⟩ := p; simp only [Dict.modify]; split <;> simp [ih]

theorem Dict.keys_set_mem (d : Dict κ ν) (k : κ) (v : ν) (h : k ∈ d.keys) :
    (d.set k v).keys = d.keys := by
  induction d with
  | nil => simp at h
  | cons p t ih => obtain ⟨k', v'⟩ := p; grind [Dict.set, Dict.keys_cons]

theorem Dict.keys_set_not_mem (d : Dict κ ν) (k : κ) (v : ν) (h : k ∉ d.keys) :
    (d.set k v).keys = d.keys ++ [k] := by
  induction d with
  | nil => simp [Dict.set]
  | cons p t ih => obtain ⟨k', v'⟩ := p; grind [Dict.set, Dict.keys_cons]

theorem Dict.keys_pop (d : Dict κ ν) (k : κ) : (d.pop k).keys = d.keys.filter (· != k) := by
  induction d with
  | nil => simp [Dict.pop]
  | cons p t ih => obtain ⟨k', v'⟩ := p; grind [Dict.pop, Dict.keys_cons]

theorem Dict.get?_set_eq (d : Dict κ ν) (k : κ) (v : ν) : (d.set k v).get? k = some v := by
  induction d with
  | nil => simp [Dict.set, Dict.get?]
  | cons p t ih => obtain ⟨k', v'⟩ := p; grind [Dict.set, Dict.get?]

theorem Dict.get?_set_ne (d : Dict κ ν) (k k₂ : κ) (v : ν) (h : k₂ ≠ k) :
    (d.set k v).get? k₂ = d.get? k₂ := by
  induction d with
  | nil => simp [Dict.set, Dict.get?, Ne.symm h]
  | cons p t ih => obtain ⟨k', v'⟩ := p; grind [Dict.set, Dict.get?]

theorem Dict.get?_pop_ne (d : Dict κ ν) (k k₂ : κ) (h : k₂ ≠ k) :
    (d.pop k).get? k₂ = d.get? k₂ := by
  induction d with
  | nil => simp [Dict.pop, Dict.get?]
  | cons p t ih => obtain ⟨k', v'⟩ := p; grind [Dict.pop, Dict.get?]

theorem Dict.get?_pop_eq (d : Dict κ ν) (k : κ) : (d.pop k).get? k = none := by
  induction d with
  | nil => simp [Dict.pop, Dict.get?]
  | cons p t ih => obtain ⟨k', v'⟩ := p; grind [Dict.pop, Dict.get?]

theorem Dict.get?_mapKV (d : Dict κ ν) (f : κ → ν → ν) (k : κ) :
    (d.mapKV f).get? k = (d.get? k).map (f k) := by
  induction d with
  | nil => simp [Dict.mapKV, Dict.get?]
  | cons p t ih =>
    obtain ⟨k', v'⟩ := p
    simp only [Dict.mapKV, List.map_cons, Dict.get?] at ih ⊢
    split
    · next h => subst h; simp
    · exact ih

theorem Dict.get?_ofFn (ks : List κ) (f : κ → ν) (k : κ) (h : k ∈ ks) :
    (Dict.ofFn ks f).get? k = some (f k) := by
  induction ks with
  | nil => simp at h
  | cons k' t ih => grind [Dict.ofFn, Dict.get?]

theorem Dict.get?_fromKeys (ks : List κ) (v : ν) (k : κ) (h : k ∈ ks) :
    (Dict.fromKeys ks v).get? k = some v := by
  induction ks with
  | nil => simp at h
  | cons k' t ih => grind [Dict.fromKeys, Dict.get?]

theorem Dict.get?_isSome_iff (d : Dict κ ν) (k : κ) : (d.get? k).isSome ↔ k ∈ d.keys := by
  induction d with
  | nil => simp [Dict.get?]
  | cons p t ih => obtain ⟨k', v'⟩ := p; grind [Dict.get?, Dict.keys_cons]

theorem Dict.get?_none_of_not_mem (d : Dict κ ν) (k : κ) (h : k ∉ d.keys) : d.get? k = none := by
  have := Dict.get?_isSome_iff d k
  cases hh : d.get? k with
  | none => rfl
  | some v => simp [hh] at this; exact absurd this h

theorem Dict.get?_modify_eq (d : Dict κ ν) (k : κ) (f : ν → ν) :
    (d.modify k f).get? k = (d.get? k).map f := by
  induction d with
  | nil => simp [Dict.modify, Dict.get?]
  | cons p t ih => obtain ⟨k', v'⟩ := p; grind [Dict.modify, Dict.get?]

theorem Dict.get?_modify_ne (d : Dict κ ν) (k k₂ : κ) (f : ν → ν) (h : k₂ ≠ k) :
    (d.modify k f).get? k₂ = d.get? k₂ := by
  induction d with
  | nil => simp [Dict.modify, Dict.get?]
  | cons p t ih => obtain ⟨k', v'⟩ := p; grind [Dict.modify, Dict.get?]

/-- One read-modify-write is a `mapKV` touching only that key. -/
theorem Dict.mapKV_id_of_not_mem (t : Dict κ ν) (k : κ) (f : ν → ν) (h : k ∉ Dict.keys t) :
    t.mapKV (fun c v => if c = k then f v else v) = t := by
  induction t with
  | nil => rfl
  | cons q u ih =>
    obtain ⟨a, b⟩ := q
    simp only [Dict.keys_cons, List.mem_cons, not_or] at h
    have hne : ¬ a = k := fun e => h.1 e.symm
    have := ih h.2
    simp only [Dict.mapKV, List.map_cons] at this ⊢
    rw [this]; simp [hne]

theorem Dict.modify_eq_mapKV (d : Dict κ ν) (k : κ) (f : ν → ν) (hn : d.keys.Nodup) :
    d.modify k f = d.mapKV (fun c v => if c = k then f v else v) := by
  induction d with
  | nil => rfl
  | cons p t ih =>
    obtain ⟨k', v'⟩ := p
    have hn' : (Dict.keys t).Nodup := (List.nodup_cons.mp hn).2
    have hk' : k' ∉ Dict.keys t := (List.nodup_cons.mp hn).1
    by_cases h : k' = k
    · subst h
      have := Dict.mapKV_id_of_not_mem t k' f hk'
      simp only [Dict.mapKV] at this
      simp [Dict.modify, Dict.mapKV, this]
    · have := ih hn'
      simp only [Dict.mapKV] at this
      simp [Dict.modify, Dict.mapKV, h, this]

theorem Dict.mapKV_mapKV (d : Dict κ ν) (f g : κ → ν → ν) :
    (d.mapKV f).mapKV g = d.mapKV (fun k v => g k (f k v)) := by
  simp [Dict.mapKV, List.map_map, Function.comp_def]

theorem Dict.mapKV_congr (d : Dict κ ν) (f g : κ → ν → ν)
    (h : ∀ k v, (k, v) ∈ d → f k v = g k v) : d.mapKV f = d.mapKV g := by
  simp only [Dict.mapKV]
  apply List.map_congr_left
  intro p hp
  rw [h p.1 p.2 hp]

theorem Dict.mem_keys_of_mem (d : Dict κ ν) (k : κ) (v : ν) (h : (k, v) ∈ d) : k ∈ d.keys := by
  simp only [Dict.keys, List.mem_map]
  exact ⟨(k, v), h, rfl⟩

/-- The per-arm tasks of `_parallel_fit`, run in the order `l`, as one `mapKV` — in particular the
    result does not depend on the order of `l` (C05) and touches exactly the keys in `l`. -/
theorem Dict.foldl_modify (l : List κ) (f : κ → ν → ν) (hl : l.Nodup) :
    ∀ d : Dict κ ν, d.keys.Nodup →
      l.foldl (fun d a => d.modify a (f a)) d = d.mapKV (fun c v => if c ∈ l then f c v else v) := by
  induction l with
  | nil =>
    intro d _
    simp only [List.foldl_nil, List.not_mem_nil, if_false]
    simp [Dict.mapKV]
  | cons a l ih =>
    intro d hd
    have hn : a ∉ l := (List.nodup_cons.mp hl).1
    have hl' : l.Nodup := (List.nodup_cons.mp hl).2
    simp only [List.foldl_cons]
    rw [ih hl' (d.modify a (f a)) (by simpa using hd)]
    rw [Dict.modify_eq_mapKV d a (f a) hd, Dict.mapKV_mapKV]
    apply Dict.mapKV_congr
    intro k v _
    by_cases h1 : k = a
    · subst h1; simp [hn]
    · simp [h1]

end Py
