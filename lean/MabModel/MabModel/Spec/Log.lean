/-
  Abstract specification of a learning policy: for every arm the log of its observations since the
  later of the most recent `fit` and the most recent `add_arm` of that arm; `N` = rows since the
  most recent `fit`.
-/
import MabModel.Core.LP
open Py

namespace Mab
variable {α : Type} [DecidableEq α]

inductive LPOp (α : Type) where
  | fit (b : Batch α) (width : Option Nat := none)
  | partialFit (b : Batch α)
  | addArm (a : α)
  | removeArm (a : α)

/-- the operations as the facade issues them (duplicates / unknown arms are rejected there) -/
def LP.stepOp (s : LP α) : LPOp α → LP α
  | .fit b w => s.fit b w
  | .partialFit b => s.partialFit b
  | .addArm a => if a ∈ s.arms then s else s.addArm a
  | .removeArm a => if a ∈ s.arms then s.removeArm a else s

def LP.run (s : LP α) (ops : List (LPOp α)) : LP α := ops.foldl LP.stepOp s

structure Spec (α : Type) where
  arms : List α
  log : α → List (Rat × Vec)
  N : Nat

def Spec.init (arms : List α) : Spec α := { arms, log := fun _ => [], N := 0 }

def Spec.step (t : Spec α) : LPOp α → Spec α
  | .fit b _ => { t with log := fun a => rowsOf b a, N := b.length }
  | .partialFit b => { t with log := fun a => t.log a ++ rowsOf b a, N := t.N + b.length }
  | .addArm a =>
    if a ∈ t.arms then t
    else { t with arms := t.arms ++ [a], log := fun x => if x = a then [] else t.log x }
  | .removeArm a => if a ∈ t.arms then { t with arms := t.arms.filter (· != a) } else t

def Spec.run (t : Spec α) (ops : List (LPOp α)) : Spec α := ops.foldl Spec.step t

end Mab
