/-
  Line-protocol driver for the executable model (core Lean only, no Mathlib).
  One scenario = `new …` followed by operations; `tape` / `oracle` lines supply the recorded sampler
  answers and external values *before* the operation that consumes them.  One output line per
  operation.  A malformed line yields `bad-op` and never a default.
-/
import MabModel.Core.Facade
import MabModel.Core.Parallel
import MabModel.Core.Simulator
open Py Mab

def ratToFloat (q : Rat) : Float :=
  let n := q.num
  let d := q.den
  let ln := n.natAbs.log2
  let ld := d.log2
  let sh := (max ln ld) - 900
  let nf := (Float.ofNat (n.natAbs >>> sh))
  let df := (Float.ofNat (d >>> sh))
  let r := nf / df
  if n < 0 then -r else r

def expectToFloat : Expect → Float
  | .val q => ratToFloat q
  | .ucb m a N n => ratToFloat m + ratToFloat a * Float.sqrt (2 * Float.log N.toFloat / n.toFloat)
  | .soft ms tau m =>
    let mx := ms.foldl (fun acc x => if acc < x then x else acc) (ms.headD 0)
    let den := (ms.map fun x => Float.exp (ratToFloat ((x - mx) / tau))).foldl (· + ·) 0
    Float.exp (ratToFloat ((m - mx) / tau)) / den
  | .lin xb a q => ratToFloat xb + ratToFloat a * Float.sqrt (ratToFloat q)
  | .nan => 0.0 / 0.0

/-- float comparison used by the driver for symbolic expectations (near-ties are resolved by the
    harness, which sees the expectations too) -/
def leFloat (a b : Expect) : Bool := expectToFloat a <= expectToFloat b

/-! ### parsing -/

def parseRat? (s : String) : Option Rat :=
  match s.splitOn "/" with
  | [n] => n.toInt?.map fun i => (i : Rat)
  | [n, d] => do
    let i ← n.toInt?
    let k ← d.toNat?
    if k = 0 then none else some (mkRat i k)
  | _ => none

def parseList? {β} (f : String → Option β) (sep : String) (s : String) : Option (List β) :=
  if s = "-" || s = "" then some [] else (s.splitOn sep).mapM f

def parseRats? := parseList? parseRat? ","
def parseNats? := parseList? String.toNat? ","
def parseRows? (s : String) : Option (List Vec) := parseList? parseRats? ";" s
def parseNatRows? (s : String) : Option (List (List Nat)) := parseList? parseNats? ";" s

def parseOptRat? (s : String) : Option (Option Rat) :=
  if s = "x" then some none else (parseRat? s).map some

def parseMetric? : String → Option Metric
  | "cityblock" => some .cityblock | "chebyshev" => some .chebyshev
  | "sqeuclidean" => some .sqeuclidean | "euclidean" => some .euclidean
  | "oracle" => some .oracle | _ => none

def parseProbs? (s : String) : Option (Option (List Rat)) :=
  if s = "-" then some none else (parseRats? s).map some

def parseKind? (s : String) : Option Kind :=
  match s.splitOn ":" with
  | ["greedy", e] => (parseRat? e).map .greedy
  | ["ucb", a] => (parseRat? a).map .ucb
  | ["softmax", t] => (parseRat? t).map .softmax
  | ["thompson"] => some .thompson
  | ["popularity"] => some .popularity
  | ["random"] => some .random
  | ["lingreedy", e, l] => do some (.linGreedy (← parseRat? e) (← parseRat? l))
  | ["linucb", a, l] => do some (.linUCB (← parseRat? a) (← parseRat? l))
  | ["lints", a, l] => do some (.linTS (← parseRat? a) (← parseRat? l))
  | _ => none

def parseNP? (s : String) : Option NPCfg :=
  match s.splitOn ":" with
  | ["none"] => some .none
  | ["radius", r, m, p] => do some (.radius (← parseRat? r) (← parseMetric? m) (← parseProbs? p))
  | ["knn", k, m] => do some (.knn (← k.toNat?) (← parseMetric? m))
  | ["lsh", d, t, p] => do some (.lsh (← d.toNat?) (← t.toNat?) (← parseProbs? p))
  | ["clusters", n] => n.toNat?.map .clusters
  | ["tree"] => some .tree
  | _ => none

/-- the binarizer family shared with the harness (arms are ids) -/
def binzOf? : String → Option (Option (Nat → Rat → Rat))
  | "-" => some none
  | "1" => some (some fun _ r => if (1 : Rat) / 2 < r then 1 else 0)
  | "2" => some (some fun a r => if ((a : Rat) + 1) < r then 1 else 0)
  | "3" => some (some fun _ r => if r ≤ (1 : Rat) / 2 then 1 else 0)
  | "4" => some (some fun a r => if a % 2 = 0 then (if 2 ≤ r then 1 else 0) else (if r < 1 then 1 else 0))
  | _ => none

def kv (toks : List String) (key : String) : Option String :=
  toks.findSome? fun t => if t.startsWith (key ++ "=") then some ((t.drop (key.length + 1)).toString) else none

def parseArmArg? : String → Option (ArmArg Nat)
  | "none" => some .none | "nan" => some .nan | "inf" => some .inf
  | s => s.toNat?.map .ok

/-! ### printing -/

def showRat (q : Rat) : String := if q.den = 1 then toString q.num else s!"{q.num}/{q.den}"

def showExpect : Expect → String
  | .val q => "v:" ++ showRat q
  | .ucb m a N n => s!"u:{showRat m}:{showRat a}:{N}:{n}"
  | .soft ms tau m => s!"s:{showRat tau}:{showRat m}:" ++ "_".intercalate (ms.map showRat)
  | .lin xb a q => s!"l:{showRat xb}:{showRat a}:{showRat q}"
  | .nan => "nan"

def showDict (d : ExpDict Nat) : String :=
  ",".intercalate (d.map fun p => s!"{p.1}={showExpect p.2}")

def showArm : Option Nat → String
  | some a => toString a
  | none => "?"

def showStream : Stream → String
  | .main => "main"
  | .row i => s!"row{i}"
  | .copyOf s => "copy(" ++ showStream s ++ ")"

def showKind : ReqKind → String
  | .rand => "rand" | .randint => "randint" | .choice => "choice" | .beta => "beta"
  | .normal => "normal" | .mvn => "mvn" | .dirichlet => "dirichlet"

def showReq (r : Req) : String :=
  s!"{showStream r.stream}/{showKind r.kind}/{r.size}/" ++ "~".intercalate (r.params.map showExpect)

def showOutExps (o : Out (ExpDict Nat)) : String :=
  match o with
  | .one d => "one " ++ showDict d
  | .many l => "many " ++ ";".intercalate (l.map showDict)

def showOutArms (o : Out (Option Nat × ExpDict Nat)) : String :=
  match o with
  | .one p => "one " ++ showArm p.1 ++ "@" ++ showDict p.2
  | .many l => "many " ++ ";".intercalate (l.map fun p => showArm p.1 ++ "@" ++ showDict p.2)

def showErr : Err → String
  | .type => "type" | .value => "value" | .notFit => "notfit" | .shape => "shape" | .index => "index"

/-! ### driver state -/

structure DState where
  bandit : Option (Bandit Nat) := none
  tape : Tape := []
  oracle : Oracle := {}

def certOk (b : Bandit Nat) : Bool :=
  let chk (lp : LP Nat) : Bool :=
    !lp.kind.isLinear || lp.st.all fun p => !p.2.inited || p.2.cnt = 0 && p.2.sum = 0 && (p.2.Ainv.length = p.2.A.length)
  chk b.lp

/-- every fitted per-arm model carries an exact inverse (certificate for `np.linalg.inv`) -/
def invCertOk (b : Bandit Nat) : Bool :=
  let chk (lp : LP Nat) : Bool :=
    !lp.kind.isLinear || lp.st.all fun p => !p.2.inited || !p.2.rngPriv || isInverseCert p.2.A p.2.Ainv
  chk b.lp && b.lps.all chk

/-! ### the abstract state (compared with the abstraction of the real object graph after every step) -/

def showVec (v : Vec) : String := ",".intercalate (v.map showRat)
def showMat (m : Mat) : String := ";".intercalate (m.map showVec)

def showArmSt (a : Nat) (r : ArmSt Nat) : String :=
  let flag (b : Bool) : String := if b then "1" else "0"
  "@".intercalate [toString a, toString r.cnt, showRat r.sum, showRat r.mean, showExpect r.exp, showRat r.succ, showRat r.fail,
    flag r.trained ++ flag r.warm ++ flag r.inited, (match r.warmBy with | some w => toString w | none => "-"),
    showMat r.A, showVec r.Xty, showVec r.beta, showMat r.Ainv, showVec r.mu, showVec r.sc]

def showLP (lp : LP Nat) : String :=
  s!"{lp.total}&" ++ (match lp.numFeatures with | some d => toString d | none => "-") ++ "&"
    ++ ",".intercalate (lp.arms.map toString) ++ "&" ++ "!".intercalate (lp.st.map fun p => showArmSt p.1 p.2)

def showState (b : Bandit Nat) : String :=
  "#".intercalate [
    "fit:" ++ (if b.isFit then "1" else "0"),
    "lp:" ++ showLP b.lp,
    "hist:" ++ "!".intercalate (b.hist.map fun r => s!"{r.arm}@{showRat r.reward}@{showVec r.ctx}"),
    "npexp:" ++ showDict b.npExp,
    "tab:" ++ "%".intercalate (b.tables.map fun t => "!".intercalate (t.map fun p => s!"{p.1}@" ++ ",".intercalate (p.2.map toString))),
    "lab:" ++ ",".intercalate (b.labels.map toString),
    "lps:" ++ "%".intercalate (b.lps.map showLP),
    "leaf:" ++ "!".intercalate (b.leafRewards.map fun p =>
        s!"{p.1}@" ++ ";".intercalate (p.2.map fun q => s!"{q.1}>" ++ showVec q.2))]

def finish (st : DState) (b : Bandit Nat) (so : StepOut Nat) (g : Rng) (isPredict : Bool) (isQuery : Bool) :
    DState × String :=
  let head := match so.err with
    | some e => "err:" ++ showErr e
    | none => "ok"
  let outS := if so.err.isSome || !isQuery then "-"
    else if isPredict then showOutArms so.out.arms else showOutExps so.out.exps
  let flags := (if g.underflow then ["underflow"] else []) ++ (if g.tape ≠ [] then ["leftover"] else [])
            ++ (if invCertOk b then [] else ["certfail"])
  let line := head ++ " | arms=" ++ ",".intercalate (b.arms.map toString)
    ++ " | cold=" ++ ",".intercalate (b.coldArms.map toString)
    ++ " | out=" ++ outS
    ++ " | reqs=" ++ " ".intercalate (g.reqs.map showReq)
    ++ " | ties=" ++ ",".intercalate (so.out.ties.map fun t => if t then "1" else "0")
    ++ " | flags=" ++ ",".intercalate flags
    ++ " | state=" ++ showState b
  ({ st with bandit := some b, tape := [], oracle := {} }, line)

def parseTrain? (toks : List String) : Option (TrainArgs Nat) := do
  let typeOk := (← kv toks "type") == "1"
  let ctxTypeOk := (← kv toks "ctype") == "1"
  let d ← parseNats? (← kv toks "d")
  let r ← parseList? parseOptRat? "," (← kv toks "r")
  let cs ← kv toks "c"
  let c ← if cs = "none" then some none else (parseRows? cs).map some
  some { typeOk, ctxTypeOk, decisions := d, rewards := r, contexts := c }

def parsePred? (toks : List String) : Option PredArgs := do
  let ctxTypeOk := (← kv toks "ctype") == "1"
  let cs ← kv toks "c"
  let c ← if cs = "none" then some none else (parseRows? cs).map some
  some { ctxTypeOk, contexts := c }

def parseWarm? (toks : List String) : Option (WarmArgs Nat) := do
  let typeOk := (← kv toks "type") == "1"
  let featOk := (← kv toks "feat") == "1"
  let q ← parseRat? (← kv toks "q")
  let keys ← parseNats? (← kv toks "keys")
  let raw ← parseList? (parseList? (fun s => if s = "n" then some none else (parseRat? s).map some) ",") ";" (← kv toks "raw")
  let look (f t : Nat) : Option Rat :=
    match keys.idxOf? f, keys.idxOf? t with
    | some i, some j => ((raw.getD i []).getD j none)
    | _, _ => none
  some { typeOk, featOk, q, keys, raw := look }

def stepLine (st : DState) (line : String) : DState × Option String :=
  let toks := (line.trimAscii.toString.splitOn " ").filter (· ≠ "")
  match toks with
  | [] => (st, none)
  | "new" :: rest =>
    match (do
      let kind ← parseKind? (← kv rest "kind")
      let np ← parseNP? (← kv rest "np")
      let arms ← parseNats? (← kv rest "arms")
      let binz ← binzOf? (← kv rest "binz")
      let k1 := (← kv rest "k1") == "1"
      some (Bandit.init arms kind np binz k1)) with
    | some b => ({ bandit := some b }, some "new-ok")
    | none => (st, some "bad-op")
  | "tape" :: [vals] =>
    match parseRats? vals with
    | some v => ({ st with tape := st.tape ++ [v] }, none)
    | none => (st, some "bad-op")
  | "oracle" :: [what, vals] =>
    let o := st.oracle
    let r : Option Oracle :=
      match what with
      | "labels" => (parseNats? vals).map fun v => { o with labels := v }
      | "cells" => (parseNats? vals).map fun v => { o with cells := v }
      | "leaves" => (parseNatRows? vals).map fun v => { o with leaves := v }
      | "qleaves" => (parseNatRows? vals).map fun v => { o with qleaves := v }
      | "dists" => (parseRows? vals).map fun v => { o with dists := v }
      | "ksets" => (parseNatRows? vals).map fun v => { o with ksets := v }
      | _ => none
    match r with
    | some o => ({ st with oracle := o }, none)
    | none => (st, some "bad-op")
  | cmd :: rest =>
    match st.bandit with
    | none => (st, some "bad-op")
    | some b =>
      let g : Rng := { tape := st.tape }
      let run (op : Op Nat) (isPredict isQuery : Bool) : DState × Option String :=
        let (b', so, g') := b.step leFloat op st.oracle g
        let (st', s) := finish st b' so g' isPredict isQuery
        (st', some s)
      match cmd with
      | "fit" => match parseTrain? rest with
        | some a => run (.fit a) false false
        | none => (st, some "bad-op")
      | "pfit" => match parseTrain? rest with
        | some a => run (.partialFit a) false false
        | none => (st, some "bad-op")
      | "pred" => match parsePred? rest with
        | some a => run (.predict a) true true
        | none => (st, some "bad-op")
      | "pexp" => match parsePred? rest with
        | some a => run (.predictExp a) false true
        | none => (st, some "bad-op")
      | "add" =>
        match (do
          let arg ← parseArmArg? (← rest.head?)
          let binz ← binzOf? (← kv rest "binz")
          let callable := (← kv rest "callable") == "1"
          -- a non-callable binarizer is still "a binarizer was passed"
          let binz' := if !callable then some (fun (_ : Nat) (r : Rat) => r) else binz
          some (Op.addArm arg binz' callable)) with
        | some op => run op false false
        | none => (st, some "bad-op")
      | "rem" =>
        match (do parseArmArg? (← rest.head?)) with
        | some arg => run (.removeArm arg) false false
        | none => (st, some "bad-op")
      | "warm" => match parseWarm? rest with
        | some w => run (.warmStart w) false false
        | none => (st, some "bad-op")
      | "scaler" =>
        -- oracle: the fitted StandardScaler of one arm's model (`scaler <arm> mu=<..> sc=<..>`), read from scikit-learn
        match (do
          let a ← (← rest.head?).toNat?
          let mu ← parseRats? (← kv rest "mu")
          let sc ← parseRats? (← kv rest "sc")
          some (a, mu, sc)) with
        | some (a, mu, sc) =>
          let b' : Bandit Nat := { b with lp := { b.lp with st := b.lp.st.modify a fun r => { r with mu := mu, sc := sc } } }
          ({ st with bandit := some b' }, none)
        | none => (st, some "bad-op")
      | _ => (st, some "bad-op")

/-! ### stand-alone function calls (C05, C16): `call <fn> <args…>` -/

def callLine (toks : List String) : Option String :=
  match toks with
  | ["series", vals, fromFit, n, d] => do
    let v ← parseRats? vals
    let n ← n.toNat?
    let d ← d.toNat?
    some (";".intercalate ((convertSeries v (fromFit == "1") n d).map fun r => ",".intercalate (r.map showRat)))
  | ["partition", n, j, cpu] => do
    let n ← n.toNat?
    let j ← j.toInt?
    let cpu ← cpu.toNat?
    let (jobs, sizes, starts) := partitionContexts n j cpu
    some s!"{jobs} | {",".intercalate (sizes.map toString)} | {",".intercalate (starts.map toString)}"
  | _ => none

/-! ### simulator bookkeeping: `sim <fn> <args…>` -/

def showStat (s : Stat) : String := s!"{s.count}:{showRat s.sum}:{showRat s.min}:{showRat s.max}:{showRat s.mean}"

def simLine (toks : List String) : Option String :=
  match toks with
  | ["batches", n, b] => do
    let n ← n.toNat?
    let b ← b.toNat?
    some (";".intercalate ((batchBounds n b).map fun p => s!"{p.1},{min p.2 n}"))
  | "stats" :: rest => do
    let arms ← parseNats? (← kv rest "arms")
    let d ← parseNats? (← kv rest "d")
    let r ← parseRats? (← kv rest "r")
    some (";".intercalate ((armStats arms d r).map fun p => s!"{p.1}={showStat p.2}"))
  | "eval" :: rest => do
    let arms ← parseNats? (← kv rest "arms")
    let d ← parseNats? (← kv rest "d")
    let r ← parseRats? (← kv rest "r")
    let p ← parseNats? (← kv rest "p")
    let t ← parseRats? (← kv rest "t")
    let train (a : Nat) : Rat := match arms.idxOf? a with | some i => t.getD i 0 | none => 0
    some (";".intercalate ((evaluate arms d r p train).map fun q => s!"{q.1}={q.2.length}:{showRat q.2.sum}"))
  | "evalnn" :: rest => do
    -- `n=` one record per test row, rows separated by `;`: `e` = empty record, else per arm (arm order) a value or `-`
    let arms ← parseNats? (← kv rest "arms")
    let d ← parseNats? (← kv rest "d")
    let r ← parseRats? (← kv rest "r")
    let p ← parseNats? (← kv rest "p")
    let t ← parseRats? (← kv rest "t")
    let nraw := (← kv rest "n").splitOn ";"
    let train (a : Nat) : Rat := match arms.idxOf? a with | some i => t.getD i 0 | none => 0
    let nbrs : List (Option (Nat → Option Rat)) ← nraw.mapM fun row =>
      if row = "e" then some none
      else do
        let vals ← (row.splitOn ",").mapM fun x => if x = "-" then some none else (parseRat? x).map some
        some (some fun a => match arms.idxOf? a with | some i => vals.getD i none | none => none)
    some (";".intercalate ((evaluateNN arms d r p train nbrs).map fun q => s!"{q.1}={q.2.length}:{showRat q.2.sum}"))
  | _ => none

partial def loop (h : IO.FS.Stream) (out : IO.FS.Stream) (st : DState) : IO Unit := do
  let line ← h.getLine
  if line.isEmpty then return ()
  let toks := (line.trimAscii.toString.splitOn " ").filter (· ≠ "")
  match toks with
  | "call" :: rest =>
    out.putStrLn ((callLine rest).getD "bad-op")
    loop h out st
  | "sim" :: rest =>
    out.putStrLn ((simLine rest).getD "bad-op")
    loop h out st
  | _ =>
    let (st', o) := stepLine st line
    match o with
    | some s => out.putStrLn s
    | none => pure ()
    loop h out st'

def main : IO Unit := do
  let out ← IO.getStdout
  loop (← IO.getStdin) out {}
  out.flush
